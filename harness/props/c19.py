"""C19 — units mirror the extended properties; Scalar ordering and XYData pairing hold."""
from __future__ import annotations

import math

import vf

ID = "C19"
CASE_TYPE = "c19case"
SPEC_REQ = "Corr.C19Spec"
MODEL_REQ = "Corr.C19Model"
EXTRA_REQ = "Model.Scalar"
SPEC_FN = "c19_spec_ok"
MODEL_FN = "c19_model_ok"
PROPS_FILE = "Props/C19.v"
USES_GEN = []
RULE = ("cases = write histories (attribute set with str / non-str, dictionary set, dictionary delete, re-set) on Scalar, "
        "Vector, XYData, AnalogWaveform, ComplexWaveform, Spectrum, observing after every step BOTH views of every units / "
        "channel-name key; constructor units vs extended_properties (absent / equal / different / empty / non-str); Scalar "
        "comparison over the cross product of bool/int/float (huge ints vs floats, +-0.0, inf, nan, halves) and str values "
        "(empty, non-ASCII, prefixes) x equal/different units, all of == != < <= > >=; XYData construction matrix (ndim "
        "0-2, lengths, 20 dtypes incl. unsupported, mismatched) and equality; distinct = (kind, class, op/value classes, "
        "outcome); trivial = none")
TRUSTED = ["hand model Model/Scalar.v tied by the correspondence; str values are identified by ids, numbers sent as exact dyadics"]
ASSUMPTIONS = ["Python compares int/float/bool exactly and str by code points (modelled)"]
PARTIAL = ["a non-str value written directly into the dictionary under a units key is outside the property (units are str)"]

KEYS = {1: "NI_UnitDescription", 2: "NI_UnitDescription_X", 3: "NI_UnitDescription_Y", 4: "NI_ChannelName"}
STRS = ["", "V", "A", "é ü", "volts", " "]
CLASSES = {0: ("Scalar", {1: "units"}), 1: ("Vector", {1: "units"}), 2: ("XYData", {2: "x_units", 3: "y_units"}),
           3: ("AnalogWaveform", {1: "units", 4: "channel_name"}), 4: ("ComplexWaveform", {1: "units", 4: "channel_name"}),
           5: ("Spectrum", {1: "units", 4: "channel_name"})}


def _mk(cls, **kw):
    import numpy as np
    from nitypes.scalar import Scalar
    from nitypes.vector import Vector
    from nitypes.waveform import AnalogWaveform, ComplexWaveform, Spectrum
    from nitypes.xy_data import XYData
    if cls == 0:
        return Scalar(5, **kw)
    if cls == 1:
        if kw.pop("_empty", False):
            return Vector([], kw.pop("units", ""), value_type=int, **kw) if "units" in kw else Vector([], value_type=int, **kw)
        return Vector([1, 2], **kw)
    if cls == 2:
        return XYData(np.array([1.0]), np.array([2.0]), **kw)
    if cls == 3:
        return AnalogWaveform(2, **kw)
    if cls == 4:
        return ComplexWaveform(2, **kw)
    return Spectrum(2, **kw)


def _pv(v):
    return STRS[v] if isinstance(v, int) else {"int": 5, "none": None, "bytes": b"V"}[v]


def _enc(x):
    return ["s", STRS.index(x)] if isinstance(x, str) and x in STRS else ["n"]


def _num(v):
    k = v[0]
    if k == "b":
        return bool(v[1])
    if k == "i":
        return int(v[1])
    if k == "f":
        return float.fromhex(v[1]) if v[1] not in ("inf", "-inf", "nan") else float(v[1])
    if k == "s":
        return v[1]
    return {"none": None, "list": [1], "bytes": b"a", "complex": 1j}[v[1]]


def run_impl(c):
    import numpy as np
    k = c["k"]
    if k == "hist":
        cls = c["cls"]
        obj = _mk(cls)
        attrs = CLASSES[cls][1]
        ext = obj.extended_properties
        steps = []
        for op in c["ops"]:
            pre = {kk: (_enc(ext[KEYS[kk]]) if KEYS[kk] in ext else None) for kk in attrs}
            key = KEYS[op["key"]]

            def f():
                if op["op"] == "attr":
                    setattr(obj, attrs[op["key"]], _pv(op["v"]))
                elif op["op"] == "dict":
                    ext[key] = _pv(op["v"])
                else:
                    del ext[key]
                return 0
            r = vf.try_impl(f)
            post_attr = {kk: _enc(getattr(obj, name)) for kk, name in attrs.items()}
            post_dict = {kk: (_enc(ext[KEYS[kk]]) if KEYS[kk] in ext else None) for kk in attrs}
            steps.append({"pre": pre, "res": r, "attrs": post_attr, "dict": post_dict})
        return {"steps": steps}
    if k == "ctor":
        cls = c["cls"]
        name = CLASSES[cls][1][c["key"]]
        kw = {name: _pv(c["units"])}
        if c["ext"] is not None:
            kw["extended_properties"] = {KEYS[c["key"]]: _pv(c["ext"])}
        if cls >= 3:
            return {"exc": "OtherError"}
        if c.get("empty") and cls == 1:
            kw["_empty"] = True      # Vector([], units, value_type=int): the same rules as for a vector with items
        return vf.try_impl(lambda: _enc(getattr(_mk(cls, **kw), name)))
    if k == "cmp":
        from nitypes.scalar import Scalar
        a, b = Scalar(_num(c["v1"]), STRS[c["u1"]]), Scalar(_num(c["v2"]), STRS[c["u2"]])
        # == is True iff values are equal and units identical: other extended properties take no part in it
        for o, x in zip((a, b), c.get("xp", (None, None))):
            if x is not None:
                o.extended_properties["verif_note"] = x
        for o, d in zip((a, b), c.get("delkey", (False, False))):
            if d and STRS[c["u1"] if o is a else c["u2"]] == "":
                # the units entry removed through the dictionary view: the units are "" as before
                o.extended_properties.pop("NI_UnitDescription", None)
        out = {"eq": bool(a == b), "ne": bool(a != b)}
        for name, f in (("lt", lambda: a < b), ("le", lambda: a <= b), ("gt", lambda: a > b), ("ge", lambda: a >= b)):
            out[name] = vf.try_impl(lambda: bool(f()))
        return out
    if k == "sinit":
        from nitypes.scalar import Scalar
        return vf.try_impl(lambda: (Scalar(_num(c["v"])), 0)[1])
    if k == "xy":
        from nitypes.xy_data import XYData

        def arr(d):
            shape = {0: (), 1: (d["len"],), 2: (d["len"], 2)}[d["ndim"]]
            return np.zeros(shape, np.dtype(d["dtype"]))
        def build():
            x, y = arr(c["x"]), arr(c["y"])
            via = c.get("via", "ctor")
            if via == "ctor":
                obj = XYData(x, y)
            else:
                # the factory given two arrays and no dtype: the same two arrays, the same refusals
                obj = XYData.from_arrays_1d(x, y, copy=(via == "factory_copy"))
            if obj.x_data.dtype != x.dtype or obj.y_data.dtype != y.dtype or obj.x_data.shape != x.shape or obj.y_data.shape != y.shape:
                raise RuntimeError("the axes are not the arrays given")
            return 0
        return vf.try_impl(build)
    if k == "xyeq":
        def f():
            from nitypes.xy_data import XYData
            shape = c.get("shape", "same")
            if shape == "same":
                x1, y1 = np.array([1.0, 2.0]), np.array([3.0, 4.0])
                x2 = x1.copy() if c["sx"] else np.array([1.0, 2.5])
                y2 = y1.copy() if c["sy"] else np.array([3.0, 4.5])
            else:
                # different lengths (never equal): one element against its repetition, empty against one, 2 against 3
                n1, n2 = {"rep": (1, 3), "empty": (0, 1), "23": (2, 3), "rep_r": (3, 1)}[shape]
                x1, y1, x2, y2 = np.full(n1, 1.0), np.full(n1, 3.0), np.full(n2, 1.0), np.full(n2, 3.0)
            if c.get("dt2"):
                # equal values held in another dtype are equal values
                x1, y1 = x1.astype("int32"), y1.astype("int32")
                x2, y2 = (x1 if c["sx"] else x1 + 1).astype(c["dt2"]), (y1 if c["sy"] else y1 + 1).astype(c["dt2"])
            if c.get("nan"):
                # an axis holding NaN is not equal to anything by value - not even to the very same array object
                x1 = np.array([1.0, float("nan")]); y1 = np.array([3.0, 4.0])
                x2, y2 = (x1, y1) if c["nan"] == "shared" else (x1.copy(), y1.copy())
            a = XYData(x1, y1, x_units="s", y_units="V")
            b = XYData(x2, y2, x_units="s" if c["sxu"] else "ms", y_units="V" if c["syu"] else "mV")
            if c.get("nan") == "self":
                b = a
            eq, ne = a == b, a != b
            if bool(eq) == bool(ne):
                raise RuntimeError("== and != agree")
            return bool(eq)
        rr = vf.try_impl(f)
        return {"eq": rr["ok"]} if "ok" in rr else rr
    raise AssertionError(k)


def _pvc(v):
    if v is None:
        return None
    return "(PStr %d)" % v[1] if v[0] == "s" else "PNonStr"


def _propsc(d):
    return "[" + "; ".join("(%d, %s)" % (k, _pvc(v)) for k, v in sorted(d.items()) if v is not None) + "]"


def _argc(v):
    return "(PStr %d)" % v if isinstance(v, int) else "PNonStr"


def _svc(v):
    k = v[0]
    if k in ("b", "i"):
        return "(VNum (Fin %s 0))" % vf.zc(int(v[1]))
    if k == "f":
        if v[1] == "inf":
            return "(VNum PInf)"
        if v[1] == "-inf":
            return "(VNum NInf)"
        if v[1] == "nan":
            return "(VNum NaN)"
        num, den = float.fromhex(v[1]).as_integer_ratio()
        return "(VNum (Fin %s %s))" % (vf.zc(num), vf.zc(-(den.bit_length() - 1)))
    if k == "s":
        return "(VStr %s)" % vf.listc([ord(ch) for ch in v[1]])
    return "VOtherType"


SUPPORTED = {"float32", "float64", "int8", "int16", "int32", "int64", "uint8", "uint16", "uint32", "uint64"}
DTYPES = sorted(SUPPORTED) + ["complex64", "complex128", "bool", "float16", "<U3", "object", "datetime64[s]"]


def _arrd(d):
    return "{| a_ndim := %d; a_len := %d; a_dtype := %d; a_supported := %s |}" % (
        d["ndim"], d["len"] if d["ndim"] >= 1 else 0, DTYPES.index(d["dtype"]), vf.boolc(d["dtype"] in SUPPORTED))


def _rbc(r):
    return "(Raise %s)" % r["exc"] if "exc" in r else "(Ok %s)" % vf.boolc(r["ok"])


def to_coq(c, r):
    k = c["k"]
    if k == "hist":
        obs = []
        for op, st in zip(c["ops"], r["steps"]):
            if op["op"] == "del":
                opc = "UDelDict %d" % op["key"]
            else:
                opc = "%s %d %s" % ("USetAttr" if op["op"] == "attr" else "USetDict", op["key"], _argc(op["v"]))
            res = "(Raise %s)" % st["res"]["exc"] if "exc" in st["res"] else "(Ok tt)"
            attrs = "[" + "; ".join("(%d, %s)" % (kk, _pvc(v)) for kk, v in sorted(st["attrs"].items())) + "]"
            dct = "[" + "; ".join("(%d, %s)" % (kk, "None" if v is None else "(Some %s)" % _pvc(v)) for kk, v in sorted(st["dict"].items())) + "]"
            obs.append("{| uo_pre := %s; uo_op := %s; uo_res := %s; uo_attrs := %s; uo_dict := %s |}" % (_propsc(st["pre"]), opc, res, attrs, dct))
        return "UnitsHist %d [%s]" % (c["cls"], ";\n ".join(obs))
    if k == "ctor":
        ext = "[]" if c["ext"] is None else "[(%d, %s)]" % (c["key"], _argc(c["ext"]))
        out = "(Raise %s)" % r["exc"] if "exc" in r else "(Ok %s)" % _pvc(r["ok"])
        return "CtorUnits %d %d %s %s %s" % (c["cls"], c["key"], _argc(c["units"]), ext, out)
    if k == "cmp":
        return "ScalarCmp %s %d %s %d %s %s %s %s %s %s" % (_svc(c["v1"]), c["u1"], _svc(c["v2"]), c["u2"], vf.boolc(r["eq"]), vf.boolc(r["ne"]),
                                                       _rbc(r["lt"]), _rbc(r["le"]), _rbc(r["gt"]), _rbc(r["ge"]))
    if k == "sinit":
        return "ScalarInit %s %s" % (_svc(c["v"]), "(Raise %s)" % r["exc"] if "exc" in r else "(Ok tt)")
    if k == "xy":
        return "%s %s %s %s" % ("XYCtor" if c.get("via", "ctor") == "ctor" else "XYFactory", _arrd(c["x"]), _arrd(c["y"]), "(Raise %s)" % r["exc"] if "exc" in r else "(Ok tt)")
    if k == "xyeq":
        if "exc" in r:
            return "XYEq true true true true false"      # == raised: never acceptable
        same = c.get("shape", "same") == "same"
        return "XYEq %s %s %s %s %s" % (vf.boolc(c["sx"] and same), vf.boolc(c["sy"] and same), vf.boolc(c["sxu"]), vf.boolc(c["syu"]), vf.boolc(r["eq"]))
    raise AssertionError(k)


def sig(c, r):
    k = c["k"]
    if k == "hist":
        return "hist|%d|%s" % (c["cls"], "/".join("%s%d%s:%s" % (op["op"], op["key"], "n" if not isinstance(op.get("v", 0), int) else "", st["res"].get("exc", "ok"))
                                               for op, st in list(zip(c["ops"], r["steps"]))[:4])), True
    if k == "ctor":
        return "ctor|%d|%s|%s|%s" % (c["cls"], c["units"], c["ext"], r.get("exc", "ok")), True
    if k == "cmp":
        vc = lambda v: v[0] + (v[1] if v[0] == "f" and v[1] in ("inf", "-inf", "nan") else "")
        return "cmp|%s|%s|%s|%s" % (vc(c["v1"]), vc(c["v2"]), c["u1"] == c["u2"], r["lt"].get("exc", "ok")), True
    if k == "xy":
        return "xy|%d%d|%s|%s|%s|%s" % (c["x"]["ndim"], c["y"]["ndim"], c["x"]["len"] == c["y"]["len"], c["x"]["dtype"], c["y"]["dtype"] == c["x"]["dtype"], r.get("exc", "ok")), True
    return "%s|%s" % (k, str(c)[:40]), True


def finding_key(c, r):
    return sig(c, r)[0]


def case_size(c):
    return len(str(c))


def gen_cases(rng, tier):
    big = tier != "quick"
    cases = []
    for _ in range(900 if not big else 15000):
        cls = rng.randrange(6)
        keys = list(CLASSES[cls][1])
        ops = []
        for _ in range(rng.randrange(1, 9)):
            m = rng.random()
            key = rng.choice(keys)
            if m < 0.45:
                ops.append({"op": "attr", "key": key, "v": rng.randrange(len(STRS)) if rng.random() < 0.85 else rng.choice(["int", "none", "bytes"])})
            elif m < 0.8:
                ops.append({"op": "dict", "key": key, "v": rng.randrange(len(STRS))})
            else:
                ops.append({"op": "del", "key": key})
        cases.append({"k": "hist", "cls": cls, "ops": ops})
    for cls in (0, 1, 2):
        for key in CLASSES[cls][1]:
            # non-str units are specified (TypeError) for Scalar and Vector constructors only
            for units in list(range(len(STRS))) + (["int", "none"] if cls != 2 else []):
                for ext in [None] + list(range(len(STRS))):
                    cases.append({"k": "ctor", "cls": cls, "key": key, "units": units, "ext": ext})
                    if cls == 1:
                        cases.append({"k": "ctor", "cls": cls, "key": key, "units": units, "ext": ext, "empty": True})
    nums = [["b", True], ["b", False], ["i", 0], ["i", 1], ["i", -1], ["i", 2], ["i", 10**20], ["i", 10**20 + 1], ["i", -(2**63)], ["i", 2**53 + 1],
            ["f", (0.0).hex()], ["f", (-0.0).hex()], ["f", (1.0).hex()], ["f", (0.5).hex()], ["f", (1e20).hex()], ["f", (2.0**53).hex()], ["f", (-1.5).hex()],
            ["f", "inf"], ["f", "-inf"], ["f", "nan"], ["f", (5e-324).hex()]]
    strs = [["s", ""], ["s", "a"], ["s", "ab"], ["s", "b"], ["s", "é"], ["s", "Z"], ["s", "a "]]
    vals = nums + strs
    for v1 in vals:
        for v2 in vals:
            for (u1, u2) in ((0, 0), (1, 1), (1, 2), (0, 1)):
                if big or rng.random() < 0.5:
                    cases.append({"k": "cmp", "v1": v1, "u1": u1, "v2": v2, "u2": u2})
                    if rng.random() < 0.3:
                        cases[-1]["xp"] = rng.choice([[1, 2], [1, None], [None, "x"], [3, 3]])
                    if (u1 == 0 or u2 == 0) and rng.random() < 0.5:
                        cases[-1]["delkey"] = rng.choice([[True, False], [False, True], [True, True]])
    for v in vals + [["o", "none"], ["o", "list"], ["o", "bytes"], ["o", "complex"]]:
        cases.append({"k": "sinit", "v": v})
    for _ in range(700 if not big else 6000):
        dx = rng.choice(DTYPES)
        dy = dx if rng.random() < 0.8 else rng.choice(DTYPES)
        nx = rng.choice([0, 1, 1, 1, 2]); ny = rng.choice([0, 1, 1, 1, 2])
        lx = rng.choice([0, 1, 2, 3]); ly = lx if rng.random() < 0.7 else rng.choice([0, 1, 2, 3])
        cases.append({"k": "xy", "x": {"ndim": nx, "len": lx, "dtype": dx}, "y": {"ndim": ny, "len": ly, "dtype": dy},
                      "via": rng.choice(["ctor", "ctor", "factory_copy", "factory_nocopy"])})
    for m in range(16):
        cases.append({"k": "xyeq", "sx": bool(m & 1), "sy": bool(m & 2), "sxu": bool(m & 4), "syu": bool(m & 8)})
    for dt2 in ("float64", "int64", "uint8", "float32", ">i4"):
        for m in (15, 14, 7):
            cases.append({"k": "xyeq", "sx": bool(m & 1), "sy": bool(m & 2), "sxu": bool(m & 4), "syu": bool(m & 8), "dt2": dt2})
    for nan in ("shared", "copy", "self"):
        cases.append({"k": "xyeq", "sx": False, "sy": True, "sxu": True, "syu": True, "nan": nan})
    for shape in ("rep", "empty", "23", "rep_r"):
        for m in (15, 11):
            cases.append({"k": "xyeq", "sx": True, "sy": True, "sxu": bool(m & 4), "syu": bool(m & 8), "shape": shape})
    return cases


def search_cases(rng, literals, tier):
    return gen_cases(rng, "thorough")


def distribution(pairs):
    d = {}
    for c, r in pairs:
        d[c["k"]] = d.get(c["k"], 0) + 1
    return d
