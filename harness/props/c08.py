"""C08 — Timing yields exactly the requested timestamps, without drift, or refuses."""
from __future__ import annotations

import itertools

import vf
from props.common_time import UNIT, mk_dtm, mk_td, ranges, read_dtm

ID = "C08"
CASE_TYPE = "c08case"
SPEC_REQ = "Corr.C08Spec"
MODEL_REQ = "Corr.C08Model"
EXTRA_REQ = "Spec.TimingSpec"
SPEC_FN = "c08_spec_ok"
MODEL_FN = "c08_model_ok"
PROPS_FILE = "Props/C08.v"
USES_GEN = []
RULE = ("cases = get_timestamps(i, n) on NONE / REGULAR (with and without timestamp and offset) / IRREGULAR timings of "
        "each of the three families: sub-microsecond and non-dyadic intervals, negative and zero intervals, huge start "
        "indices (up to 10^12), values near the families' range limits (OverflowError paths), negative and non-integer "
        "arguments; start_time; EXHAUSTIVE: all windows (len<=5, i<=6, n<=6) of irregular timings and all sequences of "
        "length <= 5 over 3 instants for the monotonic check, plus random longer sequences with plateaus; "
        "distinct = (kind, family, mode, member presence, argument classes, outcome, length class); trivial = n = 0 on a valid timing")
TRUSTED = ["hand model Model/Timing.v (generator written as the code writes it) tied by correspondence",
           "datetime/hightime arithmetic assumed exact in us/ys; their range limits are given to the model as parameters"]
ASSUMPTIONS = ["dt/ht datetime + timedelta and int * timedelta raise OverflowError exactly outside their documented ranges"]
PARTIAL = []


def _timing(c):
    from nitypes.waveform import Timing
    fam = c["fam"]
    ts = mk_dtm(fam, c["ts"]) if c.get("ts") is not None else None
    off = mk_td(fam, c["off"]) if c.get("off") is not None else None
    if c["mode"] == 0:
        return Timing.create_with_no_interval(ts, off)
    if c["mode"] == 1:
        return Timing.create_with_regular_interval(mk_td(fam, c["si"]), ts, off)
    lst = [mk_dtm(fam, v) for v in c["tss"]]
    t = Timing.create_with_irregular_interval(lst)
    if c.get("hostile"):
        # the caller keeps using its own list afterwards; the Timing must hold its own copy
        if lst:
            lst[0] = mk_dtm(fam, 12345 * UNIT[fam])
        lst.append(mk_dtm(fam, 0))
        lst.reverse()
        if c["hostile"] == 2:
            lst.clear()
    return t


def _argv(a):
    return {"float": 1.5, "str": "1", "none": None}[a] if isinstance(a, str) else a


def run_impl(c):
    from nitypes.waveform import Timing
    k = c["k"]
    if k == "get":
        t = _timing(c)
        def hostile(raw):
            """a caller that edits whatever list it was handed"""
            if isinstance(raw, list):
                raw.reverse()
                raw.extend(raw[:1] * 2)
                del raw[:1]
                raw.clear()

        def f():
            if c["mode"] == 2:
                # an earlier full-window request whose result the caller then edits
                try:
                    hostile(t.get_timestamps(0, len(c["tss"])))
                except Exception:
                    pass
            raw = t.get_timestamps(_argv(c["i"]), _argv(c["n"]))
            out = list(raw)
            hostile(raw)
            again = list(t.get_timestamps(_argv(c["i"]), _argv(c["n"])))
            if again != out:
                raise RuntimeError("the Timing changed when a returned list was edited")
            return [read_dtm(x) for x in out]
        return vf.try_impl(f)
    if k == "start":
        t = _timing(c)
        return vf.try_impl(lambda: read_dtm(t.start_time))
    def _as_seq(seq):
        # every Sequence counts: a deque, or one that only knows integer indices
        form = c.get("seqform")
        if form == "deque":
            import collections
            return collections.deque(seq)
        if form == "intseq":
            return _IntSeq(seq)
        return seq

    def _make_irregular(seq):
        seq = _as_seq(seq)
        # the named constructor, or the general one with copy_timestamps spelled out: the same acceptance
        via = c.get("via", "named")
        if via == "named":
            return Timing.create_with_irregular_interval(seq)
        from nitypes.waveform import SampleIntervalMode
        return Timing(SampleIntervalMode.IRREGULAR, timestamps=seq, copy_timestamps=(via == "ctor_copy"))
    if k == "irregular":
        return vf.try_impl(lambda: (_make_irregular([mk_dtm(c["fam"], v * UNIT[c["fam"]] + c.get("base", 0)) for v in c["l"]]), 0)[1])
    if k == "irregular_bad":
        import datetime as _dt
        bad = {"int": lambda v: v, "none": lambda v: None, "str": lambda v: "abc"[v % 3], "float": lambda v: float(v),
               "date": lambda v: _dt.date(2020, 1, 1 + v), "td": lambda v: _dt.timedelta(seconds=v),
               # things that merely COMPARE with datetimes are not datetimes either
               "dt64": lambda v: __import__("numpy").datetime64(_dt.datetime(1904, 1, 1) + _dt.timedelta(seconds=v), "us"),
               "duck": lambda v: _Duck(mk_dtm(c["fam"], v * UNIT[c["fam"]]))}[c["bad"]]
        seq = [bad(v) if j in c["at"] else mk_dtm(c["fam"], v * UNIT[c["fam"]]) for j, v in enumerate(c["l"])]
        return vf.try_impl(lambda: (_make_irregular(seq if c.get("seq", "list") == "list" else tuple(seq)), 0)[1])
    raise AssertionError(k)


class _IntSeq(__import__("collections").abc.Sequence):
    def __init__(self, items):
        self._items = list(items)

    def __len__(self):
        return len(self._items)

    def __getitem__(self, i):
        if not isinstance(i, int):
            raise TypeError("sequence index must be integer, not '%s'" % type(i).__name__)
        return self._items[i]


class _Duck:
    """orders like the datetime it wraps, against datetimes and against its own kind, without being one"""
    def __init__(self, d):
        self.d = d

    def _o(self, other):
        return other.d if isinstance(other, _Duck) else other

    def __lt__(self, o): return self.d < self._o(o)
    def __le__(self, o): return self.d <= self._o(o)
    def __gt__(self, o): return self.d > self._o(o)
    def __ge__(self, o): return self.d >= self._o(o)
    def __eq__(self, o): return self.d == self._o(o)
    def __hash__(self): return hash(self.d)


def _oz(v):
    return "None" if v is None else "(Some %s)" % vf.zc(v)


def to_coq(c, r):
    k = c["k"]
    if k == "get":
        rg = ranges(c["fam"])
        tss = "None" if c["mode"] != 2 else "(Some %s)" % vf.listc(c["tss"])
        i = "None" if isinstance(c["i"], str) else _oz(c["i"])
        n = "None" if isinstance(c["n"], str) else _oz(c["n"])
        return "GetTs %s %s %s %s %s %s %s %s %s %s" % (" ".join(vf.zc(x) for x in rg), vf.zc(c["mode"]), _oz(c.get("ts")), _oz(c.get("off")),
                                                  _oz(c.get("si")), tss, i, n, vf.resc(r, vf.listc), "")
    if k == "start":
        rg = ranges(c["fam"])
        return "StartTime %s %s %s %s %s" % (vf.zc(rg[2]), vf.zc(rg[3]), _oz(c.get("ts")), _oz(c.get("off")), vf.resc(r))
    if k == "irregular":
        out = "(Ok tt)" if "ok" in r else "(Raise %s)" % r["exc"]
        return "Irregular %s %s" % (vf.listc(c["l"]), out)
    if k == "irregular_bad":
        return "IrregularBad %s" % ("(Ok tt)" if "ok" in r else "(Raise %s)" % r["exc"])
    raise AssertionError(k)


def sig(c, r):
    k = c["k"]
    outcome = r.get("exc", "ok") if isinstance(r, dict) else "ok"
    if k == "irregular_bad":
        l = c["l"]
        mono = l == sorted(l) or l == sorted(l, reverse=True)
        return "irrbad|%s|%s|n%d|at%d|%s|%s" % (c["fam"], c["bad"], min(len(l), 4), min(c["at"]) if c["at"] else -1, "mono" if mono else "zig", outcome), True
    if k == "irregular":
        l = c["l"]
        shape = "len%d" % min(len(l), 6) + ("p" if any(a == b for a, b in zip(l, l[1:])) else "") + ("u" if any(a < b for a, b in zip(l, l[1:])) else "") + ("d" if any(a > b for a, b in zip(l, l[1:])) else "")
        return "irr|%s|%s|%s" % (c["fam"], shape, outcome), True
    if k == "start":
        return "start|%s|%s|%s|%s" % (c["fam"], c.get("ts") is not None, c.get("off") is not None, outcome), True
    cls = lambda a: a if isinstance(a, str) else "neg" if a < 0 else "0" if a == 0 else "small" if a < 10 else "big"
    ln = len(r["ok"]) if "ok" in r else -1
    s = "get|%s|%d|%s|%s|%s|%s|%s|%s|%s" % (c["fam"], c["mode"], c.get("ts") is not None, c.get("off") is not None,
                                         "si" + ("-" if (c.get("si") or 0) < 0 else "0" if c.get("si") == 0 else "+"),
                                         cls(c["i"]), cls(c["n"]), outcome, "0" if ln == 0 else "1" if ln == 1 else "n" if ln > 1 else "-")
    return s, not (ln == 0)


def finding_key(c, r):
    return sig(c, r)[0]


def case_size(c):
    return len(str(c))


def _val(rng, fam, what):
    lo_td, hi_td, lo_dtm, hi_dtm = ranges(fam)
    u = UNIT[fam]
    if what == "dtm":
        return rng.choice([0, u, -u, 3502915200 * u + rng.randrange(u), lo_dtm, hi_dtm, hi_dtm - rng.randrange(10 * u), lo_dtm + rng.randrange(10 * u), rng.randrange(lo_dtm // 2, hi_dtm // 2)])
    if what == "off":
        return rng.choice([0, 1, -1, u, -u // 3, rng.randrange(-10 * u, 10 * u)])
    # interval: sub-microsecond / non-dyadic / negative / zero / huge
    return rng.choice([0, 1, -1, 3, 7, u // 3, u // 7, -(u // 3), u, -u, 86400 * u, rng.randrange(1, u), rng.randrange(-u, u), hi_td, lo_td])


def gen_cases(rng, tier):
    big = tier != "quick"
    cases = []
    fams = ("Dt", "Ht", "Bt")
    args = [0, 1, 2, 3, 5, 10, 1000, 10**6, 10**12, -1, -5, "float", "str", "none"]
    for _ in range(2500 if not big else 60000):
        fam = rng.choice(fams)
        mode = rng.choice([0, 1, 1, 1, 1])
        c = {"k": "get", "fam": fam, "mode": mode}
        if rng.random() < 0.85:
            c["ts"] = _val(rng, fam, "dtm")
        if rng.random() < 0.5:
            c["off"] = _val(rng, fam, "off")
        if mode == 1:
            c["si"] = _val(rng, fam, "si")
        c["i"] = rng.choice(args)
        c["n"] = rng.choice(args[:6] + [4, 7, 20, -1, -2, "float", "none"])
        cases.append(c)
        if rng.random() < 0.2:
            cases.append({"k": "start", "fam": fam, "mode": mode, "ts": c.get("ts"), "off": c.get("off"), "si": c.get("si")})
    # irregular windows: exhaustive for short lists
    for fam in fams:
        u = UNIT[fam]
        for ln in range(0, 6):
            base = [u * (3 * j) + j for j in range(ln)]
            if rng.random() < 0.5:
                base = base[::-1]
            for i in list(range(0, 7)) + [-1, "float"]:
                for n in list(range(0, 7)) + [-1, "none"]:
                    cases.append({"k": "get", "fam": fam, "mode": 2, "tss": base, "i": i, "n": n, "hostile": rng.choice([0, 0, 1, 2])})
    # monotonic check: exhaustive over short sequences on 3 instants, random longer ones
    for fam in fams:
        for ln in range(0, 6):
            for l in itertools.product((0, 1, 2), repeat=ln):
                cases.append({"k": "irregular", "fam": fam, "l": list(l), "via": rng.choice(["named", "named", "ctor_copy", "ctor_nocopy"]),
                              "seqform": rng.choice([None, None, "deque", "intseq"])})
        for _ in range(300 if not big else 5000):
            ln = rng.randrange(3, 12)
            mode = rng.randrange(4)
            if mode == 0:
                l = sorted(rng.randrange(6) for _ in range(ln))
            elif mode == 1:
                l = sorted((rng.randrange(6) for _ in range(ln)), reverse=True)
            elif mode == 2:  # rise, plateau, fall
                a = sorted(rng.randrange(6) for _ in range(ln // 2))
                l = a + [a[-1]] * rng.randrange(1, 3) + sorted((rng.randrange(a[-1] + 1) for _ in range(ln - len(a))), reverse=True)
            else:
                l = [rng.randrange(4) for _ in range(ln)]
            cases.append({"k": "irregular", "fam": fam, "l": l, "base": rng.choice([0, 3502915200 * UNIT[fam]]),
                          "via": rng.choice(["named", "named", "ctor_copy", "ctor_nocopy"])})
    # sequences holding non-datetime elements, in monotonic and in zig-zag order: TypeError either way
    for _ in range(250 if not big else 4000):
        ln = rng.randrange(1, 7)
        l = [rng.randrange(4) for _ in range(ln)] if rng.random() < 0.6 else sorted(rng.randrange(5) for _ in range(ln))
        bad = rng.choice(["int", "none", "str", "float", "date", "td", "dt64", "duck", "duck"])
        at = list(range(ln)) if rng.random() < 0.4 else sorted(rng.sample(range(ln), rng.randrange(1, ln + 1)))
        if bad in ("dt64", "duck") and ln > 1 and rng.random() < 0.6:
            at = [j for j in at if j > 0] or [ln - 1]     # a genuine datetime first, the foreign element later
        cases.append({"k": "irregular_bad", "fam": rng.choice(fams), "l": l, "bad": bad, "at": at, "seq": rng.choice(["list", "tuple"]),
                      "via": rng.choice(["named", "named", "ctor_copy", "ctor_nocopy"])})
    # regular windows that END exactly at (or within one step of) the family's range limit: all n values fit
    for _ in range(200 if not big else 3000):
        fam = rng.choice(fams)
        lo_td, hi_td, lo_dtm, hi_dtm = ranges(fam)
        u = UNIT[fam]
        si = rng.choice([1, 3, u // 3, u, 86400 * u, rng.randrange(1, u)])
        i, n = rng.choice([0, 1, 3, 10]), rng.choice([0, 1, 2, 5])
        slack = rng.choice([0, 0, 1, si - 1, si // 2])
        if rng.random() < 0.5:
            ts = hi_dtm - (i + max(n, 1) - 1) * si - slack
            c = {"k": "get", "fam": fam, "mode": 1, "ts": ts, "si": si, "i": i, "n": n}
        else:
            ts = lo_dtm + (i + max(n, 1) - 1) * si + slack
            c = {"k": "get", "fam": fam, "mode": 1, "ts": ts, "si": -si, "i": i, "n": n}
        cases.append(c)
    return cases


def search_cases(rng, literals, tier):
    return gen_cases(rng, "quick") + gen_cases(rng, "quick")


def distribution(pairs):
    d = {}
    for c, r in pairs:
        key = c["k"] + ":" + str(c.get("mode", "")) + ":" + (r.get("exc", "ok") if isinstance(r, dict) else "ok")
        d[key] = d.get(key, 0) + 1
    return d
