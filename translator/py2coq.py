#!/usr/bin/env python3
"""py2coq — fail-closed translator from a small pure-integer subset of Python (ast) to Gallina.

Usage: py2coq.py <repo_src_dir> <out_dir>
Writes <out_dir>/BintimeGen.v, PortGen.v, StateGen.v and <out_dir>/literals.json.

Every target function is translated independently.  An unsupported construct inside a target
does NOT get skipped: the function becomes `Definition <name> : TranslatorFailure := ...`, which
makes every dependent lemma fail to type-check (fail closed), and the reason is recorded in
literals.json["failures"].

Python values are represented as:  int -> Z, bool -> bool, TimeDelta -> Z (ticks),
DateTime -> Z (ticks of the offset from the epoch), TimeValueTuple / tuples -> Coq tuples,
str -> Coq string (only for == comparisons and tables), list[int] -> list Z.
A function that can raise returns `res T` (Common/Py.v); a pure one returns T.
"""
from __future__ import annotations

import ast
import json
import os
import sys


class Unsupported(Exception):
    pass


class NeedRes(Exception):
    pass


# ---------------------------------------------------------------------------------------------
# exception helper functions -> class, read from _exceptions.py / waveform/_exceptions.py
def load_exception_helpers(paths):
    helpers = {}
    for path in paths:
        tree = ast.parse(open(path).read())
        for node in tree.body:
            if isinstance(node, ast.FunctionDef):
                classes = set()
                for sub in ast.walk(node):
                    if isinstance(sub, (ast.Return, ast.Raise)):
                        v = sub.value if isinstance(sub, ast.Return) else sub.exc
                        if isinstance(v, ast.Call) and isinstance(v.func, ast.Name):
                            if v.func.id.endswith("Error"):
                                classes.add(v.func.id)
                        elif isinstance(v, ast.Name) and node.returns is not None:
                            classes.add(ast.unparse(node.returns))
                if node.returns is not None and ast.unparse(node.returns).endswith("Error"):
                    classes.add(ast.unparse(node.returns))
                if len(classes) == 1:
                    helpers[node.name] = classes.pop()
    return helpers


KNOWN_EXN = {
    "TypeError", "ValueError", "OverflowError", "ZeroDivisionError", "IndexError", "KeyError",
    "RuntimeError", "AttributeError", "AssertionError",
}


class Fn:
    def __init__(self, coq, params, ret, raises):
        self.coq, self.params, self.ret, self.raises = coq, params, ret, raises


class Module:
    """Translation context for one python module."""

    def __init__(self, path, helpers):
        self.path = path
        self.src = open(path).read()
        self.tree = ast.parse(self.src)
        self.helpers = helpers
        self.consts = {}  # python name -> (coq name, python value)
        self.out = []
        self.fns = {}  # key -> Fn
        self.literals = set()
        self.failures = []
        self.fresh = 0

    # -- module level integer constants ---------------------------------------------------
    def translate_constants(self, names=None, prefix="k"):
        ns = {}
        self.ns = ns
        for node in self.tree.body:
            tgt = None
            if isinstance(node, ast.Assign) and len(node.targets) == 1 and isinstance(node.targets[0], ast.Name):
                tgt, val = node.targets[0].id, node.value
            elif isinstance(node, ast.AnnAssign) and isinstance(node.target, ast.Name) and node.value is not None:
                tgt, val = node.target.id, node.value
            if tgt is None or (names is not None and tgt not in names):
                continue
            try:
                pyval = eval(compile(ast.Expression(val), "<const>", "eval"), {"__builtins__": {}}, dict(ns))
            except Exception:
                continue
            if isinstance(pyval, bool) or not isinstance(pyval, int):
                continue
            coq = prefix + "_" + tgt.lstrip("_")
            try:
                _, body, _ = self.expr(val, {}, pure_only=True)
            except (Unsupported, NeedRes) as e:
                self.fail(coq, "constant %s: %s" % (tgt, e))
                continue
            ns[tgt] = pyval
            self.consts[tgt] = (coq, pyval)
            self.literals.add(pyval)
            self.out.append("Definition %s : Z := %s." % (coq, body))
            # cross-check of the python-side evaluation, and the literal form lia needs
            self.out.append("Lemma %s_val : %s = %s. Proof. reflexivity. Qed." % (coq, coq, zlit(pyval)))
            self.out.append("#[export] Hint Rewrite %s_val : pyconst." % coq)
        self.ns = ns

    def fail(self, coq, reason):
        self.failures.append("%s: %s: %s" % (os.path.basename(self.path), coq, reason))
        self.out.append("(* TRANSLATOR FAILURE: %s *)" % reason.replace("*)", "* )"))
        self.out.append("Definition %s : TranslatorFailure := translator_failure." % coq)

    def newvar(self, base):
        self.fresh += 1
        return "%s_%d" % (base, self.fresh)

    def const_value(self, node):
        """Python value of an expression made of literals and module constants, else None."""
        try:
            for sub in ast.walk(node):
                if isinstance(sub, ast.Name) and sub.id not in self.ns:
                    return None
                if isinstance(sub, (ast.Call, ast.Attribute, ast.Subscript)):
                    return None
            return eval(compile(ast.Expression(node), "<c>", "eval"), {"__builtins__": {}}, dict(self.ns))
        except Exception:
            return None

    # -- expressions --------------------------------------------------------------------------
    # returns (binds, coq, type); binds = [(var, res-typed coq expression)]
    def expr(self, n, env, pure_only=False):
        E = lambda m: self.expr(m, env, pure_only)
        if isinstance(n, ast.Constant):
            v = n.value
            if isinstance(v, bool):
                return [], ("true" if v else "false"), "bool"
            if isinstance(v, int):
                self.literals.add(v)
                return [], zlit(v), "int"
            if isinstance(v, str):
                if not all(32 <= ord(c) < 127 and c != '"' for c in v):
                    raise Unsupported("string literal %r" % v)
                return [], '"%s"%%string' % v, "str"
            raise Unsupported("constant %r" % (v,))
        if isinstance(n, ast.Name):
            if n.id in env:
                return [], env[n.id][0], env[n.id][1]
            if n.id in self.consts:
                return [], self.consts[n.id][0], "int"
            raise Unsupported("name %s" % n.id)
        if isinstance(n, ast.Tuple):
            parts = [E(e) for e in n.elts]
            return sum((p[0] for p in parts), []), "(" + ", ".join(p[1] for p in parts) + ")", "tuple"
        if isinstance(n, ast.List):
            parts = [E(e) for e in n.elts]
            if any(p[0] for p in parts):
                raise Unsupported("effectful list literal")
            return [], "[" + "; ".join(p[1] for p in parts) + "]", "list"
        if isinstance(n, ast.UnaryOp):
            b, c, t = E(n.operand)
            if isinstance(n.op, ast.USub):
                if t in ("TD", "DT"):
                    return self.call_fn(self.lookup_op(t, "__neg__", None), b, [c], pure_only)
                if t != "int":
                    raise Unsupported("unary minus on %s" % t)
                return b, "(- %s)" % c, "int"
            if isinstance(n.op, ast.Not):
                return b, "(negb %s)" % self.truthy(c, t), "bool"
            if isinstance(n.op, ast.UAdd) and t == "int":
                return b, c, t
            raise Unsupported("unary op %s" % type(n.op).__name__)
        if isinstance(n, ast.BinOp):
            lb, lc, lt = E(n.left)
            rb, rc, rt = E(n.right)
            binds = lb + rb
            opn = type(n.op).__name__
            if lt in ("TD", "DT"):
                dunder = {"Add": "__add__", "Sub": "__sub__", "FloorDiv": "__floordiv__", "Mod": "__mod__",
                          "Mult": "__mul__"}.get(opn)
                if dunder is None:
                    raise Unsupported("operator %s on %s" % (opn, lt))
                return self.call_fn(self.lookup_op(lt, dunder, rt), binds, [lc, rc], pure_only)
            if lt != "int" or rt != "int":
                raise Unsupported("operator %s on %s,%s" % (opn, lt, rt))
            simple = {"Add": "(%s + %s)", "Sub": "(%s - %s)", "Mult": "(%s * %s)",
                      "BitAnd": "(Z.land %s %s)", "BitOr": "(Z.lor %s %s)", "BitXor": "(Z.lxor %s %s)"}
            if opn in simple:
                return binds, simple[opn] % (lc, rc), "int"
            cv = self.const_value(n.right)
            if opn in ("FloorDiv", "Mod"):
                if cv is not None and cv != 0:
                    return binds, ("(%s / %s)" if opn == "FloorDiv" else "(%s mod %s)") % (lc, rc), "int"
                if pure_only:
                    raise NeedRes()
                v = self.newvar("q")
                f = "py_floordiv" if opn == "FloorDiv" else "py_mod"
                return binds + [(v, "%s %s %s" % (f, lc, rc))], v, "int"
            if opn in ("LShift", "RShift"):
                f = "Z.shiftl" if opn == "LShift" else "Z.shiftr"
                if cv is not None and cv >= 0:
                    return binds, "(%s %s %s)" % (f, lc, rc), "int"
                # python raises ValueError for a negative shift count
                if pure_only:
                    raise NeedRes()
                v = self.newvar("sh")
                return binds + [(v, "py_shift %s %s %s" % (f, lc, rc))], v, "int"
            if opn == "Pow":
                lv, rv = self.const_value(n), self.const_value(n.right)
                if lv is not None and isinstance(lv, int) and isinstance(rv, int) and rv >= 0:
                    self.literals.add(lv)
                    return [], "(%s ^ %s)" % (lc, rc), "int"
            raise Unsupported("operator %s" % opn)
        if isinstance(n, ast.BoolOp):
            parts = [E(v) for v in n.values]
            if any(p[0] for p in parts[1:]):
                raise Unsupported("effect under short-circuit operator")
            if any(p[2] != "bool" for p in parts):
                raise Unsupported("and/or on non-bool")
            op = " && " if isinstance(n.op, ast.And) else " || "
            return parts[0][0], "(" + op.join(p[1] for p in parts) + ")", "bool"
        if isinstance(n, ast.Compare):
            return self.compare(n, env, pure_only)
        if isinstance(n, ast.IfExp):
            cb, cc, ct = E(n.test)
            ab, ac, at = E(n.body)
            bb, bc, bt = E(n.orelse)
            if ct != "bool":
                cc = self.truthy(cc, ct)
            if at != bt:
                raise Unsupported("conditional expression of two types")
            if ab or bb:
                if pure_only:
                    raise NeedRes()
                v = self.newvar("c")
                return cb + [(v, "(if %s then %s else %s)" % (cc, wrap(ab, "Ok " + ac), wrap(bb, "Ok " + bc)))], v, at
            return cb, "(if %s then %s else %s)" % (cc, ac, bc), at
        if isinstance(n, ast.Attribute):
            return self.attribute(n, env, pure_only)
        if isinstance(n, ast.Call):
            return self.call(n, env, pure_only)
        if isinstance(n, ast.Subscript):
            vb, vc, vt = E(n.value)
            ib, ic, it = E(n.slice)
            if it != "int":
                raise Unsupported("subscript index type %s" % it)
            if vt == "table2":
                return vb + ib, "(nth (Z.to_nat %s) %s [])" % (ic, vc), "list"
            if vt == "list":
                return vb + ib, "(nth (Z.to_nat %s) %s 0)" % (ic, vc), "int"
            raise Unsupported("subscript of %s" % vt)
        raise Unsupported("expression %s" % type(n).__name__)

    def truthy(self, c, t):
        if t == "bool":
            return c
        if t == "int":
            return "(negb (%s =? 0))" % c
        raise Unsupported("truth value of %s" % t)

    def compare(self, n, env, pure_only):
        binds, conj = [], []
        left = self.expr(n.left, env, pure_only)
        binds += left[0]
        for op, rn in zip(n.ops, n.comparators):
            right = self.expr(rn, env, pure_only)
            if right[0] and conj:
                raise Unsupported("effect in chained comparison")
            binds += right[0]
            lt, rt = left[2], right[2]
            opn = type(op).__name__
            if lt in ("TD", "DT") and rt == lt:
                dunder = {"Lt": "__lt__", "LtE": "__le__", "Gt": "__gt__", "GtE": "__ge__", "Eq": "__eq__"}.get(opn)
                if dunder is None:
                    raise Unsupported("comparison %s on %s" % (opn, lt))
                b, c, t = self.call_fn(self.lookup_op(lt, dunder, rt), [], [left[1], right[1]], pure_only)
                conj.append(c)
            elif lt == "int" and rt == "int":
                m = {"Lt": "(%s <? %s)", "LtE": "(%s <=? %s)", "Gt": "(%s >? %s)", "GtE": "(%s >=? %s)",
                     "Eq": "(%s =? %s)", "NotEq": "(negb (%s =? %s))"}.get(opn)
                if m is None:
                    raise Unsupported("comparison %s" % opn)
                conj.append(m % (left[1], right[1]))
            elif lt == "str" and rt == "str" and opn in ("Eq", "NotEq"):
                c = "(String.eqb %s %s)" % (left[1], right[1])
                conj.append(c if opn == "Eq" else "(negb %s)" % c)
            elif lt == "bool" and rt == "bool" and opn in ("Eq", "NotEq"):
                c = "(Bool.eqb %s %s)" % (left[1], right[1])
                conj.append(c if opn == "Eq" else "(negb %s)" % c)
            else:
                raise Unsupported("comparison %s on %s,%s" % (opn, lt, rt))
            left = right
        return binds, conj[0] if len(conj) == 1 else "(" + " && ".join(conj) + ")", "bool"

    def attribute(self, n, env, pure_only):
        key = ast.unparse(n)
        if key in env:
            return [], env[key][0], env[key][1]
        b, c, t = self.expr(n.value, env, pure_only)
        if t in ("TD", "DT"):
            fn = self.fns.get((t, n.attr, None))
            if fn is not None and len(fn.params) == 1:
                return self.call_fn(fn, b, [c], pure_only)
            if n.attr in ("_ticks", "ticks") and t == "TD":
                return b, c, "int"
            if n.attr == "_offset" and t == "DT":
                return b, c, "TD"
        raise Unsupported("attribute %s" % key)

    def lookup_op(self, t, dunder, rt):
        fn = self.fns.get((t, dunder, rt)) or self.fns.get((t, dunder, None))
        if fn is None:
            raise Unsupported("no translated %s.%s for operand %s" % (t, dunder, rt))
        return fn

    def call_fn(self, fn, binds, args, pure_only):
        app = "(%s %s)" % (fn.coq, " ".join(args)) if args else fn.coq
        if fn.raises:
            if pure_only:
                raise NeedRes()
            v = self.newvar("r")
            return binds + [(v, app)], v, fn.ret
        return binds, app, fn.ret

    def call(self, n, env, pure_only):
        f = ast.unparse(n.func)
        E = lambda m: self.expr(m, env, pure_only)
        if n.keywords and f not in ("dt.timedelta", "ht.timedelta", "TimeValueTuple"):
            raise Unsupported("keyword arguments to %s" % f)
        if f == "abs" and len(n.args) == 1:
            b, c, t = E(n.args[0])
            if t == "int":
                return b, "(Z.abs %s)" % c, "int"
            if t in ("TD", "DT"):
                return self.call_fn(self.lookup_op(t, "__abs__", None), b, [c], pure_only)
        if f == "divmod" and len(n.args) == 2:
            (ab, ac, at), (bb, bc, bt) = E(n.args[0]), E(n.args[1])
            cv = self.const_value(n.args[1])
            if at == "int" and bt == "int" and cv not in (None, 0):
                return ab + bb, "(%s / %s, %s mod %s)" % (ac, bc, ac, bc), "tuple"
            if at == "TD" and bt == "TD":
                return self.call_fn(self.lookup_op("TD", "__divmod__", "TD"), ab + bb, [ac, bc], pure_only)
            raise Unsupported("divmod on %s,%s" % (at, bt))
        if f == "hash" and len(n.args) == 1:
            b, c, t = E(n.args[0])
            if t == "int":
                return b, "(py_hash %s)" % c, "int"
            if t in ("TD", "DT"):
                return self.call_fn(self.lookup_op(t, "__hash__", None), b, [c], pure_only)
        if f in ("operator.index",) and len(n.args) == 1:
            b, c, t = E(n.args[0])
            if t == "int":
                return b, c, t
        if f == "arg_to_int" and len(n.args) == 2:
            b, c, t = E(n.args[1])
            if t == "int":
                return b, c, t
        if f == "TimeValueTuple":
            args = list(n.args) + [k.value for k in n.keywords]
            names = [k.arg for k in n.keywords]
            if len(args) != 2 or names not in ([], ["whole_seconds", "fractional_seconds"]):
                raise Unsupported("TimeValueTuple call shape")
            parts = [E(a) for a in args]
            return parts[0][0] + parts[1][0], "(%s, %s)" % (parts[0][1], parts[1][1]), "tuple"
        if f in ("dt.timedelta", "ht.timedelta"):
            names = [k.arg for k in n.keywords]
            allowed = {"dt.timedelta": ["seconds", "microseconds"], "ht.timedelta": ["seconds", "yoctoseconds"]}[f]
            if n.args or names != allowed:
                raise Unsupported("%s call shape %s" % (f, names))
            parts = [E(k.value) for k in n.keywords]
            return sum((p[0] for p in parts), []), "(" + ", ".join(p[1] for p in parts) + ")", "tuple"
        # class / static method calls on the translated classes
        for pref, cls in (("self.__class__.", env.get("__class__", (None, None))[1]), ("cls.", env.get("__class__", (None, None))[1]),
                          ("TimeDelta.", "TD"), ("DateTime.", "DT")):
            if f.startswith(pref) and cls:
                meth = f[len(pref):]
                fn = self.fns.get((cls, meth, None))
                if fn is not None:
                    parts = [E(a) for a in n.args]
                    return self.call_fn(fn, sum((p[0] for p in parts), []), [p[1] for p in parts], pure_only)
        if f in env and env[f][1] == "callmap":
            return [], env[f][0], env[f][2]
        key = ast.unparse(n)
        if key in env:
            return [], env[key][0], env[key][1]
        fn = self.fns.get((None, f, None))
        if fn is not None:
            parts = [E(a) for a in n.args]
            return self.call_fn(fn, sum((p[0] for p in parts), []), [p[1] for p in parts], pure_only)
        raise Unsupported("call %s" % f)

    # -- statements ---------------------------------------------------------------------------
    def exn_of(self, node):
        exc = node.exc
        if isinstance(exc, ast.Call):
            name = ast.unparse(exc.func)
        elif isinstance(exc, ast.Name):
            name = exc.id
        else:
            raise Unsupported("raise form")
        cls = self.helpers.get(name, name)
        if cls not in KNOWN_EXN:
            raise Unsupported("unknown exception %s" % name)
        # harvest literals of the message too (harmless)
        return cls

    def stmts(self, body, env, mode, cont=None):
        """Translate a statement list to a Coq expression.  mode: 'pure' | 'res'.
        cont: function(env)->coq used when the list falls off its end (loop bodies / branches)."""
        if not body:
            if cont is None:
                raise Unsupported("function may fall off its end")
            return cont(env)
        s, rest = body[0], body[1:]
        go = lambda e2: self.stmts(rest, e2, mode, cont)
        pure_only = mode == "pure"
        if isinstance(s, ast.Expr):
            if isinstance(s.value, ast.Constant) and isinstance(s.value.value, str):
                return go(env)
            # list mutation methods on local lists
            if isinstance(s.value, ast.Call) and isinstance(s.value.func, ast.Attribute) and isinstance(s.value.func.value, ast.Name):
                lst, meth = s.value.func.value.id, s.value.func.attr
                if lst in env and env[lst][1] == "list":
                    if meth == "append" and len(s.value.args) == 1:
                        b, c, t = self.expr(s.value.args[0], env, pure_only)
                        if t != "int":
                            raise Unsupported("append of %s" % t)
                        nv = self.newvar(lst)
                        e2 = dict(env); e2[lst] = (nv, "list")
                        return wrap(b, "let %s := %s ++ [%s] in\n%s" % (nv, env[lst][0], c, go(e2)))
                    if meth == "reverse" and not s.value.args:
                        nv = self.newvar(lst)
                        e2 = dict(env); e2[lst] = (nv, "list")
                        return "let %s := rev %s in\n%s" % (nv, env[lst][0], go(e2))
            raise Unsupported("expression statement %s" % ast.unparse(s)[:40])
        if isinstance(s, ast.Return):
            if s.value is None:
                raise Unsupported("bare return")
            if isinstance(s.value, ast.Name) and s.value.id == "self" and "__new__" in env:
                fld = env["__new__"][0]
                if fld is None:
                    raise Unsupported("object returned before its field is set")
                return ("Ok %s" % fld) if mode == "res" else fld
            b, c, t = self.expr(s.value, env, pure_only)
            env["__ret__"] = (t, None)
            self.ret_type = t
            if mode == "res":
                if b and b[-1][0] == c:
                    return wrap(b[:-1], b[-1][1])
                return wrap(b, "Ok %s" % c)
            return c
        if isinstance(s, ast.Raise):
            if mode != "res":
                raise NeedRes()
            return "Raise %s" % self.exn_of(s)
        if isinstance(s, (ast.Assign, ast.AugAssign, ast.AnnAssign)):
            if isinstance(s, ast.AugAssign):
                tgt, val = s.target, ast.BinOp(left=s.target, op=s.op, right=s.value)
                ast.copy_location(val, s)
            elif isinstance(s, ast.AnnAssign):
                tgt, val = s.target, s.value
            else:
                if len(s.targets) != 1:
                    raise Unsupported("multiple assignment")
                tgt, val = s.targets[0], s.value
            # object construction protocol:  self = cls.__new__(cls); self._f = e; return self
            if isinstance(tgt, ast.Name) and tgt.id == "self" and ast.unparse(val) == "cls.__new__(cls)":
                e2 = dict(env); e2["__new__"] = (None, "obj")
                return go(e2)
            if isinstance(tgt, ast.Attribute) and ast.unparse(tgt.value) == "self":
                if tgt.attr == env.get("__field__", (None,))[0]:
                    b, c, t = self.expr(val, env, pure_only)
                    nv = self.newvar("fld")
                    e2 = dict(env); e2["__new__"] = (nv, "obj")
                    return wrap(b, "let %s := %s in\n%s" % (nv, c, go(e2)))
                if tgt.attr in ("_hightime_cache",) and isinstance(val, ast.Constant) and val.value is None:
                    return go(env)
                raise Unsupported("assignment to self.%s" % tgt.attr)
            if isinstance(tgt, ast.Name):
                if isinstance(val, ast.List) and not val.elts:
                    nv = self.newvar(tgt.id)
                    e2 = dict(env); e2[tgt.id] = (nv, "list")
                    return "let %s : list Z := [] in\n%s" % (nv, go(e2))
                b, c, t = self.expr(val, env, pure_only)
                nv = self.newvar(tgt.id)
                e2 = dict(env); e2[tgt.id] = (nv, t)
                return wrap(b, "let %s := %s in\n%s" % (nv, c, go(e2)))
            if isinstance(tgt, ast.Tuple) and all(isinstance(e, ast.Name) for e in tgt.elts):
                b, c, t = self.expr(val, env, pure_only)
                if t != "tuple":
                    raise Unsupported("tuple assignment from %s" % t)
                e2 = dict(env); nvs = []
                for e in tgt.elts:
                    nv = self.newvar(e.id); nvs.append(nv); e2[e.id] = (nv, "int")
                return wrap(b, "let '(%s) := %s in\n%s" % (", ".join(nvs), c, go(e2)))
            raise Unsupported("assignment target %s" % ast.unparse(tgt))
        if isinstance(s, ast.If):
            b, c, t = self.expr(s.test, env, pure_only)
            c = self.truthy(c, t)
            then = self.stmts(s.body + rest, dict(env), mode, cont)
            els = self.stmts(s.orelse + rest, dict(env), mode, cont)
            return wrap(b, "if %s then\n%s\nelse\n%s" % (c, then, els))
        if isinstance(s, ast.While):
            return self.while_loop(s, rest, env, mode, cont)
        if isinstance(s, ast.Pass):
            return go(env)
        raise Unsupported("statement %s" % type(s).__name__)

    def while_loop(self, s, rest, env, mode, cont):
        if mode != "res":
            raise NeedRes()
        if s.orelse:
            raise Unsupported("while/else")
        # loop-carried variables = every name assigned in the loop body
        carried = []
        for sub in ast.walk(ast.Module(body=s.body, type_ignores=[])):
            names = []
            if isinstance(sub, ast.Assign):
                names = [t.id for t in sub.targets if isinstance(t, ast.Name)]
            elif isinstance(sub, ast.AugAssign) and isinstance(sub.target, ast.Name):
                names = [sub.target.id]
            elif isinstance(sub, ast.Call) and isinstance(sub.func, ast.Attribute) and isinstance(sub.func.value, ast.Name) \
                    and sub.func.attr in ("append", "reverse"):
                names = [sub.func.value.id]
            for nm in names:
                if nm not in carried:
                    carried.append(nm)
        for nm in carried:
            if nm not in env:
                raise Unsupported("loop variable %s not initialised before the loop" % nm)
        others = [k for k in env if not k.startswith("__") and k not in carried and env[k][1] in ("int", "bool", "list", "str")]
        self.nloops = getattr(self, "nloops", {})
        k_ = self.nloops.get(self.cur, 0)
        self.nloops[self.cur] = k_ + 1
        loop = self.cur + "_loop" + (str(k_) if k_ else "")   # deterministic: proofs refer to it by name
        tyof = {"int": "Z", "bool": "bool", "list": "list Z", "str": "string"}
        inner = {}
        params = []
        for k in others + carried:
            inner[k] = (k.replace(".", "_") + "_l", env[k][1])
            params.append("(%s : %s)" % (inner[k][0], tyof[env[k][1]]))
        for k in env:
            if k.startswith("__"):
                inner[k] = env[k]
        self.loop_rets = getattr(self, "loop_rets", {})
        cb, cc, ct = self.expr(s.test, inner, False)
        if cb:
            raise Unsupported("effect in loop condition")
        cc = self.truthy(cc, ct)

        def again(e2):
            return "%s fuel' %s" % (loop, " ".join(e2[k][0] for k in others + carried))

        body = self.stmts(s.body, dict(inner), "res", again)
        done = "Ok (%s)" % ", ".join(inner[k][0] for k in carried)
        rty = " * ".join(tyof[env[k][1]] for k in carried)
        self.pre.append(
            "Fixpoint %s (fuel : nat) %s {struct fuel} : res (%s) :=\n  match fuel with\n  | O => Raise OtherError (* out of fuel *)\n  | S fuel' =>\n    if %s then\n%s\n    else %s\n  end."
            % (loop, " ".join(params), rty, cc, body, done))
        fuel = self.fuel
        if fuel is None:
            raise Unsupported("while loop without a fuel expression in the target table")
        e2 = dict(env); nvs = []
        for k in carried:
            nv = self.newvar(k); nvs.append(nv); e2[k] = (nv, env[k][1])
        pat = nvs[0] if len(nvs) == 1 else "(%s)" % ", ".join(nvs)
        fuel_c = fuel
        for k in env:
            if not k.startswith("__"):
                fuel_c = fuel_c.replace("$" + k, env[k][0])
        return "do %s <- %s (%s) %s;\n%s" % (pat, loop, fuel_c, " ".join(env[k][0] for k in others + carried),
                                             self.stmts(rest, e2, mode, cont))

    # -- functions ----------------------------------------------------------------------------
    def find_function(self, cls, name, register=None):
        scope = self.tree.body
        if cls is not None:
            for node in self.tree.body:
                if isinstance(node, ast.ClassDef) and node.name == cls:
                    scope = node.body
                    break
            else:
                raise Unsupported("class %s not found" % cls)
        found = []
        for node in scope:
            if isinstance(node, ast.FunctionDef) and node.name == name:
                decos = [ast.unparse(d) for d in node.decorator_list]
                if "overload" in decos:
                    continue
                if register is not None and not any(d.endswith(".register(%s)" % register) for d in decos):
                    continue
                if register is None and any(".register(" in d for d in decos):
                    continue
                found.append(node)
        if len(found) != 1:
            raise Unsupported("function %s.%s%s: %d definitions" % (cls, name, "[%s]" % register if register else "", len(found)))
        return found[0]

    def select_branch(self, fn, branch):
        """body of the `isinstance(value, <branch>)` arm of a top-level if/elif chain."""
        body = [s for s in fn.body if not (isinstance(s, ast.Expr) and isinstance(s.value, ast.Constant))]
        if len(body) != 1 or not isinstance(body[0], ast.If):
            raise Unsupported("dispatch chain expected")
        node = body[0]
        seen = []
        while True:
            test = ast.unparse(node.test)
            seen.append(test)
            if test in ("isinstance(value, %s)" % b for b in branch):
                if any(b_ in seen[:-1] for b_ in ()):
                    pass
                return node.body, seen[:-1]
            if len(node.orelse) == 1 and isinstance(node.orelse[0], ast.If):
                node = node.orelse[0]
            else:
                raise Unsupported("no isinstance(value, %s) arm" % "/".join(branch))

    def translate(self, spec):
        """spec: dict(cls, name, coq, params=[(pyname-or-attr-expr, coqname, type)], key=(T, name, rt),
        branch=[...], register=..., field=..., fuel=..., stop_fstring=bool, selfvar=...)"""
        coq = spec["coq"]
        self.cur = coq
        self.pre = []
        self.fuel = spec.get("fuel")
        try:
            fn = self.find_function(spec.get("cls"), spec["name"], spec.get("register"))
            for sub in ast.walk(fn):
                if isinstance(sub, ast.Constant) and isinstance(sub.value, int) and not isinstance(sub.value, bool):
                    self.literals.add(sub.value)
            body = fn.body
            if spec.get("branch"):
                body, earlier = self.select_branch(fn, spec["branch"])
                # an earlier arm must not capture the operand type we translate
                for t in earlier:
                    for b in spec.get("shadowed_by", []):
                        if b in t:
                            raise Unsupported("arm %s precedes the translated arm" % t)
            if spec.get("stop_fstring"):
                cut = None
                for i, st in enumerate(body):
                    if any(isinstance(x, ast.JoinedStr) for x in ast.walk(st)):
                        cut = i
                        break
                if cut is None:
                    raise Unsupported("expected an f-string part")
                names = spec["stop_fstring"]
                ret = ast.Return(value=ast.Tuple(elts=[ast.Name(id=x, ctx=ast.Load()) for x in names], ctx=ast.Load()))
                body = body[:cut] + [ret]
            env = {}
            plist = []
            for py, cq, ty in spec["params"]:
                env[py] = (cq, ty)
                if ty == "tv":
                    for c1 in cq.split():
                        plist.append((c1, "int"))
                elif ty == "table2":
                    pass
                elif cq not in [p[0] for p in plist] and not cq.startswith("("):
                    plist.append((cq, ty))
            env["__class__"] = (None, spec.get("self_type"))
            if spec.get("field"):
                env["__field__"] = (spec["field"], None)
            for k, (cq, ty) in spec.get("callmap", {}).items():
                env[k] = (cq, ty)
            self.ret_type = spec.get("ret")
            cont = None
            if spec.get("init"):
                def cont(e2):
                    if e2.get("__new__", (None,))[0] is None:
                        raise Unsupported("__init__ does not set self.%s" % spec["field"])
                    return "Ok %s" % e2["__new__"][0]
            try:
                if spec.get("init"):
                    raise NeedRes()
                code = self.stmts(body, dict(env), "pure")
                raises = False
            except NeedRes:
                self.pre = []
                code = self.stmts(body, dict(env), "res", cont)
                raises = True
            ret = spec.get("ret") or self.ret_type or "int"
            tyof = {"int": "Z", "bool": "bool", "TD": "Z", "DT": "Z", "list": "list Z", "str": "string"}
            ps = " ".join("(%s : %s)" % (cq, tyof[ty]) for cq, ty in plist)
            for p in self.pre:
                self.out.append(p)
            self.out.append("Definition %s %s :=\n%s." % (coq, ps, code))
            self.fns[spec["key"]] = Fn(coq, plist, ret, raises)
        except (Unsupported, NeedRes) as e:
            self.fail(coq, "%s: %s" % (spec["name"], e if str(e) else type(e).__name__))
            # keep later translations going (they will reference a TranslatorFailure and fail in Coq)
            self.fns[spec["key"]] = Fn(coq, [(c, t) for _, c, t in spec["params"]], spec.get("ret") or "int", False)

    def translate_table(self, name, coq, kind):
        """module level list-of-lists of int literals, or a string of characters."""
        for node in self.tree.body:
            if isinstance(node, ast.Assign) and len(node.targets) == 1 and isinstance(node.targets[0], ast.Name) \
                    and node.targets[0].id == name:
                try:
                    val = ast.literal_eval(node.value)
                except Exception:
                    break
                if kind == "table2" and isinstance(val, list) and all(isinstance(r, list) and all(type(x) is int for x in r) for r in val):
                    rows = "; ".join("[" + "; ".join(zlit(x) for x in r) + "]" for r in val)
                    self.out.append("Definition %s : list (list Z) := [%s]." % (coq, rows))
                    self.consts_tables = getattr(self, "consts_tables", {})
                    return
                if kind == "chars" and isinstance(val, str) and all(32 <= ord(c) < 127 and c != '"' for c in val):
                    self.out.append('Definition %s : string := "%s"%%string.' % (coq, val))
                    return
        self.fail(coq, "table %s not a literal of the expected shape" % name)


def zlit(v):
    return "(%d)" % v if v < 0 else "%d" % v


def wrap(binds, body):
    for var, e in reversed(binds):
        body = "do %s <- %s;\n%s" % (var, e, body)
    return body


HEADER = """(* GENERATED by /verif/translator/py2coq.py from %s — do not edit. *)
From NV Require Import Common.Py Common.Trans.
From Coq Require Import String.
Open Scope Z_scope.
"""


# ---------------------------------------------------------------------------------------------
def bintime(src, helpers):
    m = Module(os.path.join(src, "nitypes/bintime/_timedelta.py"), helpers)
    m.translate_constants()
    T = m.translate
    sp = ("self._ticks", "ticks", "int")
    selfp = ("self", "ticks", "TD")
    vp = ("value._ticks", "vticks", "int")
    valp = ("value", "vticks", "TD")
    T(dict(cls="TimeDelta", name="from_ticks", coq="td_from_ticks", key=("TD", "from_ticks", None),
           params=[("ticks", "ticks", "int")], field="_ticks", self_type="TD", ret="TD"))
    T(dict(cls="TimeDelta", name="from_tuple", coq="td_from_tuple", key=("TD", "from_tuple", None),
           params=[("value.whole_seconds", "ws", "int"), ("value.fractional_seconds", "fs", "int")],
           self_type="TD", ret="TD"))
    T(dict(cls="TimeDelta", name="__init__", coq="td_init", key=("TD", "__init__", None),
           params=[("self.__class__._to_ticks(seconds)", "seconds_ticks", "int")], field="_ticks", self_type="TD",
           ret="TD", init=True))
    T(dict(cls="TimeDelta", name="_", register="SupportsIndex", coq="td_to_ticks_int", key=("TD", "_to_ticks_int", None),
           params=[("seconds", "seconds", "int")], self_type="TD"))
    T(dict(cls="TimeDelta", name="_", register="dt.timedelta", coq="td_to_ticks_dt", key=("TD", "_to_ticks_dt", None),
           params=[("seconds.days", "days", "int"), ("seconds.seconds", "secs", "int"), ("seconds.microseconds", "us", "int")],
           self_type="TD"))
    T(dict(cls="TimeDelta", name="_", register="type(None)", coq="td_to_ticks_none", key=("TD", "_to_ticks_none", None),
           params=[], self_type="TD"))
    T(dict(cls="TimeDelta", name="_to_datetime_timedelta", coq="td_to_dt", key=("TD", "_to_datetime_timedelta", "x"),
           params=[sp], self_type="TD", ret="tuple"))
    T(dict(cls="TimeDelta", name="_to_hightime_timedelta", coq="td_to_ht", key=("TD", "_to_hightime_timedelta", "x"),
           params=[sp], self_type="TD", ret="tuple"))
    for prop in ("days", "seconds", "microseconds", "femtoseconds", "yoctoseconds"):
        T(dict(cls="TimeDelta", name=prop, coq="td_" + prop, key=("TD", prop, None), params=[sp], self_type="TD"))
    T(dict(cls="TimeDelta", name="to_tuple", coq="td_to_tuple", key=("TD", "to_tuple", None), params=[sp],
           self_type="TD", ret="tuple"))
    T(dict(cls="TimeDelta", name="__neg__", coq="td_neg", key=("TD", "__neg__", None), params=[sp], self_type="TD", ret="TD"))
    T(dict(cls="TimeDelta", name="__pos__", coq="td_pos", key=("TD", "__pos__", None), params=[selfp], self_type="TD", ret="TD"))
    T(dict(cls="TimeDelta", name="__abs__", coq="td_abs", key=("TD", "__abs__", None), params=[selfp, sp], self_type="TD", ret="TD"))
    for dunder in ("__add__", "__sub__", "__rsub__", "__mod__"):
        T(dict(cls="TimeDelta", name=dunder, coq="td_" + dunder.strip("_"), key=("TD", dunder, "TD"), params=[sp, vp],
               branch=["TimeDelta"], self_type="TD", ret="TD"))
    T(dict(cls="TimeDelta", name="__mul__", coq="td_mul_int", key=("TD", "__mul__", "int"), params=[sp, ("value", "n", "int")],
           branch=["int"], self_type="TD", ret="TD"))
    T(dict(cls="TimeDelta", name="__floordiv__", coq="td_floordiv_td", key=("TD", "__floordiv__", "TD"), params=[sp, vp],
           branch=["TimeDelta"], self_type="TD", ret="int"))
    T(dict(cls="TimeDelta", name="__floordiv__", coq="td_floordiv_int", key=("TD", "__floordiv__", "int"),
           params=[sp, ("value", "n", "int")], branch=["int"], shadowed_by=["int"], self_type="TD", ret="TD"))
    T(dict(cls="TimeDelta", name="__divmod__", coq="td_divmod", key=("TD", "__divmod__", "TD"), params=[selfp, valp],
           branch=["TimeDelta"], self_type="TD", ret="tuple"))
    for dunder in ("__lt__", "__le__", "__eq__", "__gt__", "__ge__"):
        T(dict(cls="TimeDelta", name=dunder, coq="td_" + dunder.strip("_"), key=("TD", dunder, "TD"), params=[sp, vp],
               branch=["self.__class__", "TimeDelta"], self_type="TD", ret="bool"))
    T(dict(cls="TimeDelta", name="__bool__", coq="td_bool", key=("TD", "__bool__", None), params=[sp], self_type="TD", ret="bool"))
    T(dict(cls="TimeDelta", name="__hash__", coq="td_hash", key=("TD", "__hash__", None), params=[sp], self_type="TD", ret="int"))
    T(dict(cls="TimeDelta", name="__str__", coq="td_str_parts", key=("TD", "__str_parts__", None),
           params=[sp, ("self.days", "(td_days ticks)", "int"), ("self.seconds", "(td_seconds ticks)", "int")],
           stop_fstring=["days", "hours", "minutes", "seconds", "fractional_seconds"], self_type="TD", ret="tuple"))
    out_td = m.out
    lits = set(m.literals)
    fails = list(m.failures)

    # _time_value_tuple.py
    tv = Module(os.path.join(src, "nitypes/bintime/_time_value_tuple.py"), helpers)
    tv.ns = {}
    tv.translate(dict(cls="TimeValueTuple", name="from_cvi", coq="tv_from_cvi", key=(None, "from_cvi", None),
                      params=[("lsb", "lsb", "int"), ("msb", "msb", "int")], ret="tuple"))
    tv.translate(dict(cls="TimeValueTuple", name="to_cvi", coq="tv_to_cvi", key=(None, "to_cvi", None),
                      params=[("self.fractional_seconds", "fs", "int"), ("self.whole_seconds", "ws", "int")], ret="tuple"))
    lits |= tv.literals
    fails += tv.failures

    # _datetime.py (DateTime = ticks of its offset); it calls the TimeDelta functions
    d = Module(os.path.join(src, "nitypes/bintime/_datetime.py"), helpers)
    d.ns = {}
    d.fns = dict(m.fns)
    op = ("self._offset", "ticks", "TD")
    vo = ("value._offset", "vticks", "TD")
    D = d.translate
    D(dict(cls="DateTime", name="from_ticks", coq="dt_from_ticks", key=("DT", "from_ticks", None),
           params=[("ticks", "ticks", "int")], field="_offset", self_type="DT", ret="DT"))
    D(dict(cls="DateTime", name="from_tuple", coq="dt_from_tuple", key=("DT", "from_tuple", None),
           params=[("value", "ws fs", "tv")], field="_offset", self_type="DT", ret="DT"))
    D(dict(cls="DateTime", name="from_offset", coq="dt_from_offset", key=("DT", "from_offset", None),
           params=[("offset", "offset", "TD")], field="_offset", self_type="DT", ret="DT"))
    for prop in ("hour", "minute", "second", "microsecond", "femtosecond", "yoctosecond"):
        D(dict(cls="DateTime", name=prop, coq="dt_" + prop, key=("DT", prop, None), params=[op], self_type="DT"))
    D(dict(cls="DateTime", name="__add__", coq="dt_add_td", key=("DT", "__add__", "TD"), params=[op, ("value", "v", "TD")],
           branch=["TimeDelta"], self_type="DT", ret="DT"))
    D(dict(cls="DateTime", name="__sub__", coq="dt_sub_dt", key=("DT", "__sub__", "DT"), params=[op, vo],
           branch=["DateTime"], self_type="DT", ret="TD"))
    D(dict(cls="DateTime", name="__sub__", coq="dt_sub_td", key=("DT", "__sub__", "TD"), params=[op, ("value", "v", "TD")],
           branch=["TimeDelta"], shadowed_by=["TimeDelta"], self_type="DT", ret="DT"))
    D(dict(cls="DateTime", name="__rsub__", coq="dt_rsub_dt", key=("DT", "__rsub__", "DT"), params=[op, vo],
           branch=["DateTime"], self_type="DT", ret="TD"))
    for dunder in ("__lt__", "__le__", "__eq__", "__gt__", "__ge__"):
        D(dict(cls="DateTime", name=dunder, coq="dt_" + dunder.strip("_"), key=("DT", dunder, "DT"), params=[op, vo],
               branch=["self.__class__", "DateTime"], self_type="DT", ret="bool"))
    D(dict(cls="DateTime", name="__hash__", coq="dt_hash", key=("DT", "__hash__", None), params=[op], self_type="DT", ret="int"))
    lits |= d.literals
    fails += d.failures
    text = HEADER % "nitypes/bintime/_timedelta.py, _datetime.py, _time_value_tuple.py" + "\n".join(out_td + tv.out + d.out) + "\n"
    return text, lits, fails


def port(src, helpers):
    m = Module(os.path.join(src, "nitypes/waveform/_digital/_port.py"), helpers)
    m.translate_constants()
    m.translate(dict(name="bit_mask", coq="port_bit_mask", key=(None, "bit_mask", None), params=[("n", "n", "int")]))
    m.translate(dict(name="_get_port_dtype", coq="port_dtype_bits", key=(None, "_get_port_dtype", None),
                     params=[("mask", "mask", "int")],
                     callmap={"np.dtype(np.uint8)": ("8", "int"), "np.dtype(np.uint16)": ("16", "int"),
                              "np.dtype(np.uint32)": ("32", "int")}))
    m.translate(dict(name="_mask_to_column_indices", coq="port_mask_to_columns", key=(None, "_mask_to_column_indices", None),
                     params=[("mask", "mask", "int"), ("port_size", "port_size", "int"), ("bitorder", "bitorder", "str")],
                     fuel="S (Z.to_nat (Z.log2 $mask + 1))", ret="list"))
    text = HEADER % "nitypes/waveform/_digital/_port.py" + "\n".join(m.out) + "\n"
    return text, m.literals, m.failures


def state(src, helpers):
    m = Module(os.path.join(src, "nitypes/waveform/_digital/_state.py"), helpers)
    m.ns = {}
    m.translate_table("_STATE_TEST_TABLE", "state_test_table", "table2")
    m.translate_table("_CHAR_TABLE", "state_char_table", "chars")
    # DigitalState.test:  not TABLE[DigitalState(s1)][DigitalState(s2)]  (DigitalState(x) validated by the hand model)
    m.translate(dict(cls="DigitalState", name="test", coq="state_test", key=(None, "test", None),
                     params=[("state1", "s1", "int"), ("state2", "s2", "int"), ("_STATE_TEST_TABLE", "state_test_table", "table2")],
                     callmap={"DigitalState(state1)": ("s1", "int"), "DigitalState(state2)": ("s2", "int")}, ret="bool"))
    text = HEADER % "nitypes/waveform/_digital/_state.py" + "\n".join(m.out) + "\n"
    return text, m.literals, m.failures


def main():
    src, out = sys.argv[1], sys.argv[2]
    os.makedirs(out, exist_ok=True)
    helpers = load_exception_helpers([os.path.join(src, "nitypes/_exceptions.py"),
                                      os.path.join(src, "nitypes/waveform/_exceptions.py")])
    report = {"failures": [], "literals": {}}
    for name, fn in (("BintimeGen", bintime), ("PortGen", port), ("StateGen", state)):
        try:
            text, lits, fails = fn(src, helpers)
        except Exception as e:  # a crash of the translator is a failure of that file, never silent
            text = HEADER % name + "(* TRANSLATOR CRASH: %r *)\nDefinition %s_crashed : TranslatorFailure := translator_failure.\n" % (e, name)
            lits, fails = set(), ["%s: translator crashed: %r" % (name, e)]
        path = os.path.join(out, name + ".v")
        old = open(path).read() if os.path.exists(path) else None
        if old != text:
            with open(path, "w") as f:
                f.write(text)
        report["failures"] += fails
        report["literals"][name] = sorted(lits)
    with open(os.path.join(out, "literals.json"), "w") as f:
        json.dump(report, f)
    for x in report["failures"]:
        print("translator:", x)


if __name__ == "__main__":
    main()
